"""Further kernels (imported by translate.py): decision chains over isinstance / None tests."""
from __future__ import annotations

import ast
from pathlib import Path

from symex import Untranslatable, find_function


def _strip_doc(body):
    if body and isinstance(body[0], ast.Expr) and isinstance(body[0].value, ast.Constant) and isinstance(body[0].value.value, str):
        return body[1:]
    return body


class Chain:
    """An if / elif / else chain (with early returns / raises) over a fixed vocabulary of atomic tests -> a Lean decision
    function.  `atoms` maps the source text of a test to a Lean Bool term; outcomes are `return <expr>` (mapped through
    `outcomes`) or `raise <Exc>(…)` (-> `.raises "<Exc>"`)."""

    def __init__(self, kernel, atoms, outcomes):
        self.kernel, self.atoms, self.outcomes = kernel, atoms, outcomes

    def test(self, n) -> str:
        txt = ast.unparse(n)
        if txt in self.atoms:
            return self.atoms[txt]
        if isinstance(n, ast.BoolOp):
            op = " && " if isinstance(n.op, ast.And) else " || "
            return "(" + op.join(self.test(v) for v in n.values) + ")"
        if isinstance(n, ast.UnaryOp) and isinstance(n.op, ast.Not):
            return f"(!{self.test(n.operand)})"
        raise Untranslatable(self.kernel, f"test outside the vocabulary: {txt[:80]}")

    def block(self, body, env=None) -> str:
        env = dict(env or {})
        if not body:
            raise Untranslatable(self.kernel, "a branch falls off the end")
        st, rest = body[0], body[1:]
        if isinstance(st, ast.Return):
            txt = ast.unparse(st.value) if st.value is not None else "None"
            if txt in env:
                return env[txt]
            if txt in self.outcomes:
                return self.outcomes[txt]
            raise Untranslatable(self.kernel, f"outcome outside the vocabulary: return {txt[:80]}")
        if isinstance(st, ast.Raise):
            exc = st.exc.func.id if isinstance(st.exc, ast.Call) and isinstance(st.exc.func, ast.Name) else ast.unparse(st.exc)
            return f'(.raises "{exc}")'
        if isinstance(st, ast.If):
            then = self.block(st.body + ([] if isinstance(st.body[-1], (ast.Return, ast.Raise)) else rest), env)
            other = self.block((st.orelse or []) + ([] if st.orelse and isinstance(st.orelse[-1], (ast.Return, ast.Raise)) else rest), env)
            return f"(if {self.test(st.test)} then {then} else {other})"
        if isinstance(st, ast.Assign) and len(st.targets) == 1 and isinstance(st.targets[0], ast.Name):
            # boolean helper variables (is_custom_1 = isinstance(…))
            name = st.targets[0].id
            atoms = dict(self.atoms)
            atoms[name] = self.test(st.value)
            sub = Chain(self.kernel, atoms, self.outcomes)
            return sub.block(rest, env)
        raise Untranslatable(self.kernel, f"statement outside the chain grammar: {ast.unparse(st)[:80]}")


def k_cosmo(src: Path, parse) -> str:
    """config/combined.py: parse_cosmology, cosmology_to_yaml, yaml_to_cosmology; cosmology.cosmology_is_equal (C15, C11)"""
    tc = parse(src, "yaw/config/combined.py")
    tk = parse(src, "yaw/cosmology.py")
    # a cosmology argument is described by: isNone, isStr, isFLRW, isCustom, nameAvailable (str: the string itself; FLRW: .name)
    parse_fn = Chain("parse_cosmology", {
        "cosmology is None": "c.isNone", "isinstance(cosmology, str)": "c.isStr",
        "isinstance(cosmology, (astropy.cosmology.FLRW, CustomCosmology))": "(c.isFLRW || c.isCustom)"},
        {"get_default_cosmology()": ".default", "yaml_to_cosmology(cosmology)": "(yamlToCosmology c)", "cosmology": ".same"})
    p_body = parse_fn.block(_strip_doc(find_function(tc, "parse_cosmology").body))
    y2c = Chain("yaml_to_cosmology", {"cosmo_name not in astropy.cosmology.available": "(!c.nameAvailable)"},
                {"getattr(astropy.cosmology, cosmo_name)": ".named"})
    y_body = y2c.block(_strip_doc(find_function(tc, "yaml_to_cosmology").body))
    c2y = Chain("cosmology_to_yaml", {
        "isinstance(cosmology, CustomCosmology)": "c.isCustom", "isinstance(cosmology, astropy.cosmology.FLRW)": "c.isFLRW",
        "cosmology.name not in astropy.cosmology.available": "(!c.nameAvailable)"}, {"cosmology.name": ".name"})
    c_body = c2y.block(_strip_doc(find_function(tc, "cosmology_to_yaml").body))
    eq = Chain("cosmology_is_equal", {
        "isinstance(cosmo1, (FLRW, CustomCosmology))": "(a.isFLRW || a.isCustom)",
        "isinstance(cosmo2, (FLRW, CustomCosmology))": "(b.isFLRW || b.isCustom)",
        "isinstance(cosmo1, CustomCosmology)": "a.isCustom", "isinstance(cosmo2, CustomCosmology)": "b.isCustom"},
        {"True": "(.value true)", "False": "(.value false)", "cosmology_equal(cosmo1, cosmo2)": "(.value astropyEqual)"})
    e_body = eq.block(_strip_doc(find_function(tk, "cosmology_is_equal").body))
    dflt = ast.unparse(_strip_doc(find_function(tk, "get_default_cosmology").body)[-1])
    init = [ast.unparse(x) for x in _strip_doc(find_function(tc, "Configuration.__init__").body)]
    init_ok = "object.__setattr__(self, 'cosmology', parse_cosmology(cosmology))" in init
    ceq = ast.unparse(_strip_doc(find_function(tc, "Configuration.__eq__").body)[-1])
    eq_ok = ceq == ("return self.binning == other.binning and self.scales == other.scales and "
                    "cosmology_is_equal(self.cosmology, other.cosmology)")
    todict = ast.unparse(_strip_doc(find_function(tc, "Configuration.to_dict").body)[-1])
    fromdict = [ast.unparse(x) for x in _strip_doc(find_function(tc, "Configuration.from_dict").body)]
    io_ok = ("cosmology=cosmology_to_yaml(self.cosmology)" in todict
             and "cosmology = parse_cosmology(the_dict.pop('cosmology', default_cosmology))" in fromdict
             and any("BinningConfig.from_dict(binning_dict, cosmology=cosmology)" in x for x in fromdict)
             and fromdict[-1] == "return cls(scales=scales, binning=binning, cosmology=cosmology, max_workers=max_workers)")
    return "\n".join([
        "/-- what the code can tell about a value given as `cosmology=` -/",
        "structure CosmoArg where\n  isNone : Bool\n  isStr : Bool\n  isFLRW : Bool\n  isCustom : Bool\n  nameAvailable : Bool\nderiving DecidableEq, Repr",
        "inductive ParseOut | default | named | same | raises (exc : String)\nderiving DecidableEq, Repr",
        "inductive YamlOut | name | raises (exc : String)\nderiving DecidableEq, Repr",
        "inductive EqOut | value (b : Bool) | raises (exc : String)\nderiving DecidableEq, Repr",
        "/-- `yaml_to_cosmology(name)` -/",
        f"def yamlToCosmology (c : CosmoArg) : ParseOut := {y_body}",
        "/-- `parse_cosmology(cosmology)` -/",
        f"def parseCosmology (c : CosmoArg) : ParseOut := {p_body}",
        "/-- `cosmology_to_yaml(cosmology)` -/",
        f"def cosmologyToYaml (c : CosmoArg) : YamlOut := {c_body}",
        "/-- `cosmology_is_equal(a, b)`; `astropyEqual` = what astropy's `cosmology_equal` says about two FLRW objects -/",
        f"def cosmologyIsEqual (a b : CosmoArg) (astropyEqual : Bool) : EqOut := {e_body}",
        f'/-- `get_default_cosmology` -/\ndef defaultCosmologyExpr : String := "{dflt}"',
        "/-- Configuration stores `parse_cosmology(cosmology)`, compares with `cosmology_is_equal`, writes `cosmology_to_yaml` and reads "
        "with `parse_cosmology`, handing the parsed cosmology to the binning -/",
        f"def configUsesCosmologyHelpers : Bool := {'true' if (init_ok and eq_ok and io_ok) else 'false'}",
        ""])


def k_tree(src: Path, parse) -> str:
    """catalog/trees.py: parse_ang_limits (validation of the angular limits) and AngularTree.__init__ / empty / count glue (C01, C13)"""
    tt = parse(src, "yaw/catalog/trees.py")
    body = _strip_doc(find_function(tt, "parse_ang_limits").body)
    txt = [ast.unparse(x) for x in body]
    if not (len(body) == 8 and txt[0] == "ang_min = np.atleast_1d(ang_min).astype(np.float64)"
            and txt[1] == "ang_max = np.atleast_1d(ang_max).astype(np.float64)"
            and txt[2].startswith("if ang_min.ndim != 1 or ang_max.ndim != 1:\n    raise ValueError(")
            and txt[5] == "ang_range = np.column_stack((ang_min, ang_max))" and txt[7] == "return ang_range"):
        raise Untranslatable("parse_ang_limits", "statement structure changed")
    OPS = {ast.Lt: "<", ast.LtE: "≤", ast.Gt: ">", ast.GtE: "≥", ast.Eq: "=", ast.NotEq: "≠"}

    def raise_if(st):
        if not (isinstance(st, ast.If) and not st.orelse and len(st.body) == 1 and isinstance(st.body[0], ast.Raise)):
            raise Untranslatable("parse_ang_limits", f"not a guard: {ast.unparse(st)[:60]}")
        return st.test

    def any_cmp(n, names):
        """np.any(<a> <op> <b>) with a, b in `names` (Lean element expressions) or constants"""
        if not (isinstance(n, ast.Call) and ast.unparse(n.func) == "np.any" and len(n.args) == 1 and isinstance(n.args[0], ast.Compare)
                and len(n.args[0].ops) == 1 and type(n.args[0].ops[0]) in OPS):
            raise Untranslatable("parse_ang_limits", f"condition form: {ast.unparse(n)[:60]}")
        c = n.args[0]

        def side(x):
            t = ast.unparse(x)
            if t in names:
                return names[t]
            if t == "np.pi":
                return "pi"
            if isinstance(x, ast.Constant) and isinstance(x.value, (int, float)) and float(x.value) == int(x.value):
                return f"({int(x.value)} : Rat)"
            raise Untranslatable("parse_ang_limits", f"operand: {t}")
        return side(c.left), OPS[type(c.ops[0])], side(c.comparators[0])
    if ast.unparse(raise_if(body[3])) != "len(ang_min) != len(ang_max)":
        raise Untranslatable("parse_ang_limits", "length test changed")
    l, op, r = any_cmp(raise_if(body[4]), {"ang_min": "p.1", "ang_max": "p.2"})
    order = f"(mins.zip maxs).any (fun p => decide ({l} {op} {r}))"
    tr = raise_if(body[6])
    if not (isinstance(tr, ast.BoolOp) and isinstance(tr.op, ast.Or) and len(tr.values) == 2):
        raise Untranslatable("parse_ang_limits", "range guard form")
    parts = []
    for v in tr.values:
        a_, o_, b_ = any_cmp(v, {"ang_range": "x"})
        parts.append(f"(mins ++ maxs).any (fun x => decide ({a_} {o_} {b_}))")
    rng = " || ".join(parts)
    # ---- AngularTree ---------------------------------------------------------------------------------------------
    ini = [ast.unparse(x) for x in _strip_doc(find_function(tt, "AngularTree.__init__").body)]
    init_ok = ini == [
        "self.num_records = len(coords)",
        "if weights is None:\n    self.weights = None\n    self.sum_weights = float(self.num_records)\n"
        "elif len(weights) != self.num_records:\n    raise ValueError(\"shape of 'coords' and 'weights' does not match\")\n"
        "else:\n    self.weights = np.asarray(weights).astype(np.float64, copy=False)\n    self.sum_weights = float(self.weights.sum())",
        "self.tree = KDTree(coords.to_3d(), leafsize=leafsize, copy_data=True)"]
    emp = [ast.unparse(x) for x in _strip_doc(find_function(tt, "AngularTree.empty").body)]
    empty_ok = emp == ["new = cls.__new__(cls)", "new.num_records = 0", "new.weights = np.empty(0) if has_weights else None",
                       "new.sum_weights = 0.0", "new.tree = None", "return new"]
    cnt = find_function(tt, "AngularTree.count")
    calls = [n for n in ast.walk(cnt) if isinstance(n, ast.Call) and ast.unparse(n.func) == "self.tree.count_neighbors"]
    count_ok = False
    if len(calls) == 1:
        c = calls[0]
        kw = {k.arg: ast.unparse(k.value) for k in c.keywords}
        count_ok = ([ast.unparse(a) for a in c.args] == ["other.tree"] and kw.get("weights") == "(self.weights, other.weights)"
                    and kw.get("r") == "AngularDistances(ang_bins).to_3d()" and kw.get("cumulative") == "cumulative")
    ctxt = [ast.unparse(x) for x in _strip_doc(cnt.body)]
    empty_zero = "if self.tree is None or other.tree is None:\n    return np.zeros(len(ang_limits))" in ctxt
    first = ctxt[0] == "ang_limits = parse_ang_limits(ang_min, ang_max)"
    return "\n".join([
        "/-- `parse_ang_limits` raises for these lower / upper limits (`pi` = the float π as a rational) -/",
        "def angLimitsRaises (mins maxs : List Rat) (pi : Rat) : Bool :=",
        f"  (mins.length != maxs.length) || ({order}) || ({rng})",
        "/-- `AngularTree.__init__`: num_records = len(coords); no weights -> sum_weights = num_records; weights of another length "
        "raise; weights are stored in the given order and summed; the KD-tree is built from `coords.to_3d()` in the same order -/",
        f"def treeInitAsModelled : Bool := {'true' if init_ok else 'false'}",
        "/-- `AngularTree.empty`: no records, zero weight sum, no tree -/",
        f"def treeEmptyAsModelled : Bool := {'true' if empty_ok else 'false'}",
        "/-- `AngularTree.count`: limits validated first; zeros when either tree is empty; `count_neighbors(other.tree, weights=(self.weights, "
        "other.weights))` — the weights are passed in the order of the trees -/",
        f"def treeCountAligned : Bool := {'true' if (count_ok and empty_zero and first) else 'false'}",
        ""])


def k_glue(src: Path, parse) -> str:
    """small glue with a meaning: the number of workers (utils/parallel.get_size, _num_processes: C05 C06), the route from pair
    counts to a redshift estimate (RedshiftData.from_corrfuncs: C04), normalised count arrays and `sum()` support (C17)"""
    tp = parse(src, "yaw/utils/parallel.py")
    gs = [ast.unparse(x) for x in _strip_doc(find_function(tp, "get_size").body)]
    if gs != ["if use_mpi():\n    size = comm.Get_size()\nelse:\n    size = _num_processes()", "max_workers = max_workers or size",
              "return min(max_workers, size)"]:
        raise Untranslatable("get_size", "changed")
    npb = [ast.unparse(x) for x in _strip_doc(find_function(tp, "_num_processes").body)]
    if npb != ["system_threads = _get_physical_cores()",
               "try:\n    num_threads = int(os.environ['YAW_NUM_THREADS'])\n    return min(num_threads, system_threads)\n"
               "except KeyError:\n    return system_threads"]:
        raise Untranslatable("_num_processes", "changed")
    tr = parse(src, "yaw/redshifts.py")
    fc = [ast.unparse(x) for x in _strip_doc(find_function(tr, "RedshiftData.from_corrfuncs").body)]
    fc_ok = fc == ["if ref_corr is not None:\n    cross_corr.is_compatible(ref_corr, require=True)",
                   "if unk_corr is not None:\n    cross_corr.is_compatible(unk_corr, require=True)",
                   "cross_data = cross_corr.sample()", "ref_data = ref_corr.sample() if ref_corr else None",
                   "unk_data = unk_corr.sample() if unk_corr else None", "return cls.from_corrdata(cross_data, ref_data, unk_data)"]
    tpc = parse(src, "yaw/correlation/paircounts.py")
    ga = [ast.unparse(x) for x in _strip_doc(find_function(tpc, "NormalisedCounts.get_array").body)]
    ga_ok = ga == ["counts = self.counts.get_array()", "sum_weights = self.sum_weights.sample_patch_sum()",
                   "return counts / sum_weights.data[:, np.newaxis, np.newaxis]"]
    radd = ["if np.isscalar(other) and other == 0:\n    return self", "return self.__add__(other)"]
    radd_ok = all([ast.unparse(x) for x in _strip_doc(find_function(tpc, q).body)] == radd
                  for q in ("NormalisedCounts.__radd__", "PatchedCounts.__radd__"))
    trd = parse(src, "yaw/catalog/readers.py")
    gnc = find_function(trd, "FitsReader._get_next_chunk")
    inner = [n for n in gnc.body if isinstance(n, ast.FunctionDef) and n.name == "get_data_swapped"]
    fits_ok = (len(inner) == 1 and ast.unparse(inner[0].body[-1]) == "return array.view(array.dtype.newbyteorder()).byteswap()"
               and ast.unparse(inner[0].body[-2]) == "array = self._hdu_data[colname][start:end]"
               and [ast.unparse(x) for x in gnc.body[1:]] == [
                   "kwargs = {attr: get_data_swapped(col) for attr, col in self._columns.items()}",
                   "_, chunk = DataChunk.create(**kwargs, degrees=self.degrees)", "return chunk"])
    # new_filereader: which reader class serves which (lower-cased) file extension; anything else raises
    nf = find_function(trd, "new_filereader")
    chain = [n for n in _strip_doc(nf.body) if isinstance(n, ast.If)]
    ext_ok = ast.unparse(_strip_doc(nf.body)[0]) == "ext = Path(path).suffix.lower()" and len(chain) == 1
    table, node = [], chain[0] if chain else None
    while ext_ok and isinstance(node, ast.If):
        t = node.test
        if not (isinstance(t, ast.Compare) and ast.unparse(t.left) == "ext" and isinstance(t.ops[0], ast.In) and isinstance(t.comparators[0], ast.Tuple)
                and len(node.body) == 1 and isinstance(node.body[0], ast.Assign) and ast.unparse(node.body[0].targets[0]) == "reader_cls"):
            ext_ok = False
            break
        for e in t.comparators[0].elts:
            table.append((e.value, ast.unparse(node.body[0].value)))
        if len(node.orelse) == 1 and isinstance(node.orelse[0], ast.If):
            node = node.orelse[0]
        else:
            ext_ok = ext_ok and len(node.orelse) == 1 and isinstance(node.orelse[0], ast.Raise)
            node = None
    if not ext_ok:
        raise Untranslatable("new_filereader", "extension chain changed")
    tcat = parse(src, "yaw/catalog/catalog.py")
    tmpl = None
    for n in tcat.body:
        if isinstance(n, ast.Assign) and ast.unparse(n.targets[0]) == "PATCH_NAME_TEMPLATE" and isinstance(n.value, ast.Constant):
            tmpl = n.value.value
    if not isinstance(tmpl, str):
        raise Untranslatable("PATCH_NAME_TEMPLATE", "not a string literal")
    gid = [ast.unparse(x) for x in _strip_doc(find_function(tcat, "get_id_from_patch_path").body)]
    gpp = ast.unparse(_strip_doc(find_function(tcat, "get_patch_path_from_id").body)[-1])
    id_ok = (gid == ["_, id_str = Path(cache_path).name.split('_')", "return int(id_str)"]
             and gpp == "return Path(cache_directory) / PATCH_NAME_TEMPLATE.format(patch_id)")
    return "\n".join([
        "/-- name of a patch directory -/",
        f'def patchNameTemplate : String := "{tmpl}"',
        "/-- `get_id_from_patch_path` splits the directory name at '_' into exactly two parts and parses the second as an integer; "
        "`get_patch_path_from_id` formats the template -/",
        f"def idFromPathAsModelled : Bool := {'true' if id_ok else 'false'}",
        "/-- `new_filereader`: reader class per lower-cased file extension; every other extension raises ValueError -/",
        "def readerExtensions : List (String × String) := [" + ", ".join(f'("{a}", "{b}")' for a, b in table) + "]",
        "/-- FITS columns reach the chunk through a VALUE-PRESERVING change of byte order: the dtype's byte-order label and the bytes are "
        "flipped together (`view(newbyteorder()).byteswap()`), whatever order astropy delivered (big-endian raw columns, native "
        "arrays for unsigned / scaled columns); every configured column goes through it under its own attribute name -/",
        f"def fitsByteorderValuePreserving : Bool := {'true' if fits_ok else 'false'}",
        "/-- `_num_processes()`: the value of YAW_NUM_THREADS (if set) capped by the number of physical cores -/",
        "def numProcesses (envThreads : Option Int) (cores : Int) : Int :=",
        "  match envThreads with | some t => min t cores | none => cores",
        "/-- `get_size(max_workers)`: `max_workers or size` (None and 0 mean: no limit), capped by the size of the pool / communicator -/",
        "def getSize (maxWorkers : Option Int) (size : Int) : Int :=",
        "  let mw := match maxWorkers with | some m => if m = 0 then size else m | none => size",
        "  min mw size",
        "/-- `RedshiftData.from_corrfuncs`: compatibility of the given correlation functions is required, each is sampled, and "
        "(cross, ref, unk) go to `from_corrdata` in this order -/",
        f"def fromCorrfuncsAsModelled : Bool := {'true' if fc_ok else 'false'}",
        "/-- `NormalisedCounts.get_array` = counts divided by the summed weight product of the bin -/",
        f"def normalisedArrayAsModelled : Bool := {'true' if ga_ok else 'false'}",
        "/-- `0 + x` returns x (so that `sum()` works), anything else goes through the checked `__add__` -/",
        f"def raddAsModelled : Bool := {'true' if radd_ok else 'false'}",
        ""])


def k_datasize(src: Path, parse) -> str:
    """randoms.RandomsBase.get_data_size: the size of the supplied weight / redshift samples the joint index is drawn from (C16)"""
    tr = parse(src, "yaw/randoms.py")
    ch = Chain("RandomsBase.get_data_size",
               {"self.weights is None": "(nw == none)", "self.redshifts is None": "(nz == none)",
                "len(self.weights) != len(self.redshifts)": "(nw != nz)"},
               {"-1": "(.size (-1))", "len(self.redshifts)": "(.size (nz.getD 0))", "len(self.weights)": "(.size (nw.getD 0))"})
    body = ch.block(_strip_doc(find_function(tr, "RandomsBase.get_data_size").body))
    init = [ast.unparse(x) for x in _strip_doc(find_function(tr, "RandomsBase.__init__").body)]
    init_ok = "self.data_size = self.get_data_size()" in init
    return "\n".join([
        "inductive SizeOut | size (n : Int) | raises (exc : String)\nderiving DecidableEq, Repr",
        "/-- `get_data_size` for supplied weight / redshift samples of lengths nw / nz (`none`: not supplied) -/",
        f"def dataSize (nw nz : Option Int) : SizeOut := {body}",
        "/-- the constructor computes the size once (`self.data_size = self.get_data_size()`), so unequal samples are refused at construction -/",
        f"def dataSizeAtInit : Bool := {'true' if init_ok else 'false'}",
        ""])
