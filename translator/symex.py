"""
Symbolic evaluation of small, straight-line numpy functions into Lean 4 terms.

The accepted grammar is deliberately small; anything outside raises
``Untranslatable`` (fail closed, DESIGN 2.3).  Values are ``Sym`` objects: a Lean
term plus its *rank* (number of `Nat` index arguments before the `Rat` result).
The numpy batch axis `b` (redshift bins) is dropped: all kernels are per-bin.
"""
from __future__ import annotations

import ast
from dataclasses import dataclass
from fractions import Fraction


class Untranslatable(Exception):
    def __init__(self, kernel: str, reason: str):
        super().__init__(f"untranslatable kernel {kernel}: {reason}")
        self.kernel = kernel
        self.reason = reason


class Sym:
    """Lean term of type Nat -> ... -> Rat (rank arrows).  Built either from a name
    (`Sym("a", 2)`) or from a python function producing the body for given index terms
    (`Sym.of(2, lambda i, j: ...)`), which keeps generated terms beta-reduced."""

    def __init__(self, lean: str, rank: int = 0, kind: str = "rat", fn=None, alias: bool = True):
        self._lean = lean
        self.rank = rank
        self.kind = kind
        self.fn = fn
        # may this value share memory with another array (name, attribute, einsum/slice view)?
        # In-place operators are only translated functionally for values known to be fresh.
        self.alias = alias

    def fresh(self) -> "Sym":
        return Sym(self._lean, self.rank, self.kind, self.fn, alias=False)

    @staticmethod
    def of(rank: int, fn, kind: str = "rat") -> "Sym":
        return Sym(None, rank, kind, fn)

    @property
    def lean(self) -> str:
        if self._lean is not None:
            return self._lean
        return lam(self.rank, self.fn)

    def __eq__(self, other):
        return isinstance(other, Sym) and self.rank == other.rank and self.kind == other.kind \
            and self.lean == other.lean

    def __hash__(self):
        return hash((self.lean, self.rank, self.kind))

    def app(self, *idx: str) -> str:
        if self.rank != len(idx):
            raise ValueError("rank mismatch")
        if self.fn is not None:
            return self.fn(*idx)
        if not idx:
            return self._lean
        return f"({self._lean} {' '.join(idx)})"


IDX = ["i", "j", "k", "l", "m"]


def lam(rank: int, body_fn) -> str:
    names = IDX[:rank]
    body = body_fn(*names)
    if rank == 0:
        return body
    return f"(fun {' '.join(names)} => {body})"


NUMTYPE = ["Rat"]      # switched to "ℝ" while real-valued kernels are generated


def lit(value) -> str:
    """Exact Lean literal for a python int / float *decimal literal* (in the current numeric type)."""
    if NUMTYPE[0] != "Rat":
        T = NUMTYPE[0]
        if isinstance(value, bool):
            raise ValueError("bool literal")
        fr_ = Fraction(repr(value)) if not isinstance(value, int) else Fraction(value)
        if fr_.denominator == 1:
            return f"({fr_.numerator} : {T})" if fr_ >= 0 else f"(-{-fr_.numerator} : {T})"
        return f"(({fr_.numerator} : {T}) / {fr_.denominator})"
    if isinstance(value, bool):
        raise ValueError("bool literal")
    if isinstance(value, int):
        return f"({value} : Rat)" if value >= 0 else f"(-{-value} : Rat)"
    fr = Fraction(repr(value))  # the decimal literal as written, not the binary64 value
    if fr.denominator == 1:
        return lit(int(fr.numerator))
    sign = "-" if fr < 0 else ""
    return f"(({sign}{abs(fr.numerator)} : Rat) / {fr.denominator})"


BINOPS = {ast.Add: "+", ast.Sub: "-", ast.Mult: "*", ast.Div: "/"}
CMPOPS = {ast.Lt: "<", ast.LtE: "≤", ast.Gt: ">", ast.GtE: "≥", ast.Eq: "=", ast.NotEq: "≠"}


def parse_einsum(subs: str):
    lhs, rhs = subs.replace(" ", "").split("->")
    ins = lhs.split(",")
    return ins, rhs


class SymEx:
    """Evaluates a function body statement by statement."""

    def __init__(self, kernel: str, env: dict[str, object], *, size: str = "N", batch: str = "b"):
        self.kernel = kernel
        self.env = dict(env)
        self.size = size
        self.batch = batch
        self.returned = None

    def fail(self, node, why: str):
        line = getattr(node, "lineno", "?")
        raise Untranslatable(self.kernel, f"{why} (line {line}: {ast.unparse(node) if isinstance(node, ast.AST) else node})")

    # ---- expressions -------------------------------------------------------
    def ev(self, node) -> object:
        if isinstance(node, ast.Constant):
            if node.value is None:
                return None
            if isinstance(node.value, bool):
                return Sym("true" if node.value else "false", 0, "bool")
            if isinstance(node.value, (int, float)):
                return Sym(lit(node.value))
            if isinstance(node.value, str):
                return node.value
            self.fail(node, "constant type")
        if isinstance(node, ast.Name):
            if node.id in self.env:
                return self.env[node.id]
            self.fail(node, f"unknown name '{node.id}'")
        if isinstance(node, ast.Attribute):
            key = ast.unparse(node)
            if key in self.env:
                return self.env[key]
            try:
                base = self.ev(node.value)
            except Untranslatable:
                base = None
            if isinstance(base, dict) and node.attr in base:
                return base[node.attr]
            self.fail(node, f"unknown attribute '{key}'")
        if isinstance(node, ast.BoolOp):
            vals = [self.ev(v) for v in node.values]
            if not all(isinstance(v, Sym) and v.kind == "bool" and v.rank == 0 for v in vals):
                self.fail(node, "boolean operands")
            op = "&&" if isinstance(node.op, ast.And) else "||"
            lits = [v.lean for v in vals]
            if all(l in ("true", "false") for l in lits):
                bs = [l == "true" for l in lits]
                return Sym("true" if (all(bs) if op == "&&" else any(bs)) else "false", 0, "bool")
            return Sym("(" + f" {op} ".join(lits) + ")", 0, "bool")
        if isinstance(node, ast.UnaryOp) and isinstance(node.op, ast.Not):
            v = self.ev(node.operand)
            if not (isinstance(v, Sym) and v.kind == "bool" and v.rank == 0):
                self.fail(node, "not-operand")
            if v.lean in ("true", "false"):
                return Sym("false" if v.lean == "true" else "true", 0, "bool")
            return Sym(f"(!{v.lean})", 0, "bool")
        if isinstance(node, ast.Tuple):
            return tuple(self.ev(e) for e in node.elts)
        if isinstance(node, ast.UnaryOp) and isinstance(node.op, ast.USub):
            v = self.need_sym(node.operand)
            return Sym.of(v.rank, lambda *ix: f"(-{v.app(*ix)})")
        if isinstance(node, ast.BinOp):
            if isinstance(node.op, ast.Pow):
                base = self.need_sym(node.left)
                if isinstance(node.right, ast.Constant) and node.right.value == 2:
                    return Sym.of(base.rank, lambda *ix: f"({base.app(*ix)} * {base.app(*ix)})")
                self.fail(node, "power other than 2")
            if type(node.op) not in BINOPS:
                self.fail(node, "operator")
            return self.binop(BINOPS[type(node.op)], self.need_sym(node.left), self.need_sym(node.right), node)
        if isinstance(node, ast.Compare):
            if len(node.ops) != 1:
                self.fail(node, "chained comparison")
            op = node.ops[0]
            if isinstance(op, (ast.Is, ast.IsNot)):
                left = self.ev(node.left)
                right = self.ev(node.comparators[0])
                if right is not None:
                    self.fail(node, "'is' with non-None")
                isnone = self.is_none(left, node)
                if isinstance(op, ast.IsNot):
                    isnone = f"(!{isnone})" if isnone not in ("true", "false") else ("false" if isnone == "true" else "true")
                return Sym(isnone, 0, "bool")
            if type(op) not in CMPOPS:
                self.fail(node, "comparison operator")
            if isinstance(op, (ast.Eq, ast.NotEq)):
                lv, rv = self.ev(node.left), self.ev(node.comparators[0])
                if isinstance(lv, str) and isinstance(rv, str):
                    res = (lv == rv) == isinstance(op, ast.Eq)
                    return Sym("true" if res else "false", 0, "bool")
            l, r = self.need_sym(node.left), self.need_sym(node.comparators[0])
            rank = max(l.rank, r.rank)
            return Sym.of(rank, lambda *ix: f"(decide ({self.bapp(l, ix)} {CMPOPS[type(op)]} {self.bapp(r, ix)}))", "bool")
        if isinstance(node, ast.IfExp):
            c = self.ev(node.test)
            if not (isinstance(c, Sym) and c.kind == "bool" and c.rank == 0):
                self.fail(node, "condition of conditional expression")
            if c.lean == "true":
                return self.ev(node.body)
            if c.lean == "false":
                return self.ev(node.orelse)
            a, b = self.ev(node.body), self.ev(node.orelse)
            return self.merge(c.lean, a, b, node)
        if isinstance(node, ast.Call):
            return self.call(node)
        if isinstance(node, ast.Subscript):
            return self.subscript(node)
        self.fail(node, "expression form")

    def bapp(self, s: Sym, ix) -> str:
        return s.app(*ix[len(ix) - s.rank:]) if s.rank else s.lean

    def is_none(self, v, node) -> str:
        if v is None:
            return "true"
        if isinstance(v, OptSym):
            return f"({v.flag} == false)" if not v.flag in ("true", "false") else ("false" if v.flag == "true" else "true")
        if isinstance(v, Sym):
            return "false"
        self.fail(node, "None test on unsupported value")

    def merge(self, cond: str, a, b, node):
        """if cond then a else b, for Sym/OptSym/None values."""
        if a is None and b is None:
            return None
        if isinstance(a, (OptSym,)) or isinstance(b, (OptSym,)) or a is None or b is None:
            fa, va = opt_parts(a)
            fb, vb = opt_parts(b)
            rank = (va or vb).rank
            va = va or Sym.of(rank, lambda *ix: "(0 : Rat)")
            vb = vb or Sym.of(rank, lambda *ix: "(0 : Rat)")
            return OptSym(f"(if {cond} then {fa} else {fb})", self.merge(cond, va, vb, node))
        if not (isinstance(a, Sym) and isinstance(b, Sym)):
            self.fail(node, "merge of unsupported values")
        if a.lean == b.lean:
            return a
        rank = max(a.rank, b.rank)
        return Sym(lam(rank, lambda *ix: f"(if {cond} then {self.bapp(a, ix)} else {self.bapp(b, ix)})"), rank, a.kind)

    def need_sym(self, node) -> Sym:
        v = self.ev(node)
        if isinstance(v, OptSym):
            # use of a possibly-None value in arithmetic: python would raise TypeError when None;
            # the caller must have resolved None-ness beforehand
            if v.flag == "true":
                return v.val
            self.fail(node, "arithmetic on a value that may be None")
        if not isinstance(v, Sym):
            self.fail(node, "expected numeric value")
        return v

    def binop(self, op: str, l: Sym, r: Sym, node) -> Sym:
        if l.rank and r.rank and l.rank != r.rank:
            self.fail(node, "broadcast between different ranks")
        rank = max(l.rank, r.rank)
        return Sym.of(rank, lambda *ix: f"({self.bapp(l, ix)} {op} {self.bapp(r, ix)})").fresh()

    def call(self, node: ast.Call):
        fn = ast.unparse(node.func)
        if fn == "np.einsum":
            return self.einsum(node)
        if fn == "np.tile":
            x = self.need_sym(node.args[0])
            reps = node.args[1]
            if not (isinstance(reps, ast.Tuple) and len(reps.elts) == 2
                    and isinstance(reps.elts[1], ast.Constant) and reps.elts[1].value == 1):
                self.fail(node, "np.tile reps")
            if x.rank != 0:
                self.fail(node, "np.tile of non per-bin scalar")
            return Sym.of(1, lambda k: x.lean)
        if fn == "np.triu":
            x = self.need_sym(node.args[0])
            if x.rank != 2 or len(node.args) != 1 or node.keywords:
                self.fail(node, "np.triu form")
            return Sym.of(2, lambda i, j: f"(if {i} ≤ {j} then {x.app(i, j)} else 0)").fresh()
        if fn == "np.diff" and len(node.args) == 1 and not node.keywords:
            x = self.need_sym(node.args[0])
            if x.rank != 1:
                self.fail(node, "np.diff of non 1-d value")
            return Sym.of(1, lambda i: f"({x.app(f'({i} + 1)')} - {x.app(i)})").fresh()
        if fn == "np.sqrt":
            x = self.need_sym(node.args[0])
            return Sym.of(x.rank, lambda *ix: f"(sqrtF {x.app(*ix)})")
        REALFN = {"np.cos": "Real.cos", "np.sin": "Real.sin", "np.arcsin": "Real.arcsin", "np.arccos": "Real.arccos"}
        if fn in REALFN and len(node.args) == 1 and NUMTYPE[0] != "Rat":
            x = self.need_sym(node.args[0])
            return Sym.of(x.rank, lambda *ix: f"({REALFN[fn]} {x.app(*ix)})").fresh()
        if fn == "np.sqrt" and NUMTYPE[0] != "Rat":
            x = self.need_sym(node.args[0])
            return Sym.of(x.rank, lambda *ix: f"(Real.sqrt {x.app(*ix)})").fresh()
        if fn == "np.deg2rad" and len(node.args) == 1:
            x = self.need_sym(node.args[0])
            return Sym.of(x.rank, lambda *ix: f"({x.app(*ix)} * degToRad)").fresh()
        if fn == "np.float64" and len(node.args) == 1:
            return self.need_sym(node.args[0])
        if fn == "np.where" and len(node.args) == 3:
            c, a, b = (self.ev(x) for x in node.args)
            rank = max(c.rank, a.rank, b.rank)
            return Sym.of(rank, lambda *ix: f"(if {self.bapp(c, ix)} then {self.bapp(a, ix)} else {self.bapp(b, ix)})")
        if fn == "np.sign" and len(node.args) == 1:
            x = self.need_sym(node.args[0])
            return Sym.of(x.rank, lambda *ix: f"(signF {x.app(*ix)})")
        if fn in self.env and callable(self.env[fn]):
            return self.env[fn](self, node)
        if isinstance(node.func, ast.Attribute):
            try:
                base = self.ev(node.func.value)
            except Untranslatable:
                base = None
            if isinstance(base, dict) and callable(base.get(node.func.attr)):
                return base[node.func.attr](self, node)
        self.fail(node, f"call to '{fn}'")

    def einsum(self, node: ast.Call) -> Sym:
        if not (node.args and isinstance(node.args[0], ast.Constant) and isinstance(node.args[0].value, str)):
            self.fail(node, "einsum without literal subscripts")
        ins, out = parse_einsum(node.args[0].value)
        ops = [self.need_sym(a) for a in node.args[1:]]
        if len(ins) != len(ops):
            self.fail(node, "einsum operand count")
        b = self.batch
        for s in ins + [out]:
            if s.count(b) != 1 or s[0] != b and s[-1] != b:
                self.fail(node, f"batch axis '{b}' must be a leading/trailing axis of every einsum operand")
        ins = [s.replace(b, "") for s in ins]
        out = out.replace(b, "")
        for s, o in zip(ins, ops):
            if len(s) != o.rank:
                self.fail(node, "einsum subscripts do not match operand rank")
        if len(set(out)) != len(out):
            self.fail(node, "repeated output index")
        free = list(out)
        summed = sorted(set("".join(ins)) - set(out))
        names = {c: f"e{c}" for c in set("".join(ins)) | set(out)}
        body = " * ".join(o.app(*[names[c] for c in s]) if o.rank else o.lean for s, o in zip(ins, ops))
        def mk(*idx):
            nm = dict(names)
            for c, ix in zip(free, idx):
                nm[c] = ix
            body = " * ".join(o.app(*[nm[c] for c in s]) if o.rank else o.lean for s, o in zip(ins, ops))
            if len(ops) > 1:
                body = f"({body})"
            for c in reversed(summed):
                body = f"(sumTo {self.size} fun {nm[c]} => {body})"
            return body
        res = Sym.of(len(free), mk)
        return res.fresh() if len(ops) > 1 else res

    def subscript(self, node: ast.Subscript):
        base = self.ev(node.value)
        if isinstance(base, Sym) and base.rank == 1:
            sl = node.slice
            # x[1:] and x[:-1] style shifts used by np.diff-like code
            if isinstance(sl, ast.Slice) and sl.step is None:
                lo = self.const_int(sl.lower)
                hi = self.const_int(sl.upper)
                if lo is not None and lo >= 0 and hi in (None,):
                    return Sym.of(1, lambda i: base.app(f"({i} + {lo})"))
                if lo in (None, 0) and hi is not None and hi < 0:
                    return base  # prefix: same indexing, shorter length
        self.fail(node, "subscript form")

    def const_int(self, node):
        if node is None:
            return None
        if isinstance(node, ast.Constant) and isinstance(node.value, int):
            return node.value
        if isinstance(node, ast.UnaryOp) and isinstance(node.op, ast.USub) and isinstance(node.operand, ast.Constant):
            return -node.operand.value
        self.fail(node, "non-constant slice bound")

    # ---- statements ---------------------------------------------------------
    def run(self, body: list[ast.stmt]):
        self.exec_block(body)
        return self.returned

    def exec_block(self, body: list[ast.stmt]):
        """statements in sequence; an `if` whose body ends in return/raise absorbs the rest as its else-branch"""
        for k, st in enumerate(body):
            if self.env is RAISES:
                break
            if self.returned is not None:
                self.fail(st, "statement after return")
            if (isinstance(st, ast.If) and st.body and isinstance(st.body[-1], (ast.Return, ast.Raise))
                    and body[k + 1:]):
                st2 = ast.If(test=st.test, body=st.body, orelse=list(st.orelse) + body[k + 1:])
                ast.copy_location(st2, st)
                self.stmt(st2)
                break
            self.stmt(st)

    def stmt(self, st: ast.stmt):
        if isinstance(st, ast.Expr) and isinstance(st.value, ast.Constant) and isinstance(st.value.value, str):
            return  # docstring
        if isinstance(st, ast.Assign):
            if len(st.targets) != 1:
                self.fail(st, "multiple assignment targets")
            tgt = st.targets[0]
            val = self.ev(st.value)
            if isinstance(tgt, ast.Name):
                self.env[tgt.id] = val
                return
            if isinstance(tgt, ast.Tuple) and isinstance(val, tuple) and len(val) == len(tgt.elts):
                for t, v in zip(tgt.elts, val):
                    if not isinstance(t, ast.Name):
                        self.fail(st, "tuple target")
                    self.env[t.id] = v
                return
            self.fail(st, "assignment target")
        if isinstance(st, ast.AugAssign):
            # `np.einsum("bii->bi", array)[:] *= c` : scale the diagonal in place (view semantics)
            t = st.target
            if (isinstance(t, ast.Subscript) and isinstance(t.slice, ast.Slice)
                    and t.slice.lower is None and t.slice.upper is None
                    and isinstance(t.value, ast.Call) and ast.unparse(t.value.func) == "np.einsum"
                    and isinstance(st.op, ast.Mult)):
                call = t.value
                subs = call.args[0].value if isinstance(call.args[0], ast.Constant) else None
                ins, out = parse_einsum(subs) if isinstance(subs, str) else ([], "")
                b = self.batch
                if [s.replace(b, "") for s in ins] == ["ii"] and out.replace(b, "") == "i" \
                        and isinstance(call.args[1], ast.Name):
                    name = call.args[1].id
                    arr = self.env.get(name)
                    c = self.need_sym(st.value)
                    if isinstance(arr, Sym) and arr.rank == 2 and c.rank == 0:
                        self.env[name] = Sym.of(2, lambda i, j: f"(if {i} = {j} then {arr.app(i, j)} * {c.lean} else {arr.app(i, j)})")
                        return
            if isinstance(t, ast.Name) and type(st.op) in BINOPS:
                cur = self.env.get(t.id)
                if isinstance(cur, Sym) and cur.rank > 0 and cur.alias:
                    self.fail(st, "in-place operator on an array that may alias another array (view)")
                if isinstance(cur, Sym):
                    self.env[t.id] = self.binop(BINOPS[type(st.op)], cur, self.need_sym(st.value), st)
                    return
            self.fail(st, "augmented assignment form")
        if isinstance(st, ast.If):
            c = self.ev(st.test)
            if not (isinstance(c, Sym) and c.kind == "bool" and c.rank == 0):
                self.fail(st, "if condition")
            if c.lean == "true":
                return self.block(st.body)
            if c.lean == "false":
                return self.block(st.orelse)
            before = dict(self.env)
            ra = self.branch(st.body, before)
            rb = self.branch(st.orelse, before)
            (enva, reta), (envb, retb) = ra, rb
            if (reta is None) != (retb is None):
                # one branch raises / returns: only `raise` is supported as early exit
                self.fail(st, "return in only one branch")
            if reta is not None:
                self.returned = self.merge(c.lean, reta, retb, st)
                return
            if enva is RAISES and envb is RAISES:
                self.fail(st, "both branches raise")
            if enva is RAISES:
                self.env = envb
                self.env.setdefault("__raises__", []).append(c.lean)
                return
            if envb is RAISES:
                self.env = enva
                self.env.setdefault("__raises__", []).append(f"(!{c.lean})")
                return
            merged = {}
            for k in set(enva) | set(envb):
                if k == "__raises__":
                    merged[k] = enva.get(k, []) + [x for x in envb.get(k, []) if x not in enva.get(k, [])]
                    continue
                if k in enva and k in envb:
                    va, vb = enva[k], envb[k]
                    if va is vb or va == vb:
                        merged[k] = va
                    else:
                        try:
                            merged[k] = self.merge(c.lean, va, vb, st)
                        except Untranslatable:
                            pass  # name unusable afterwards
            self.env = merged
            return
        if isinstance(st, ast.Return):
            self.returned = self.ev(st.value) if st.value is not None else None
            return
        if isinstance(st, ast.Raise):
            self.env = RAISES
            return
        self.fail(st, "statement form")

    def block(self, body):
        self.exec_block(body)

    def branch(self, body, before):
        saved_env, saved_ret = self.env, self.returned
        self.env, self.returned = dict(before), None
        try:
            self.exec_block(body)
            return self.env, self.returned
        finally:
            self.env, self.returned = saved_env, saved_ret


RAISES = {"__raised__": True}


@dataclass(frozen=True)
class OptSym:
    """A python value that may be None: `flag` is a Lean Bool term (true = present)."""
    flag: str
    val: Sym


def opt_parts(v):
    if v is None:
        return "false", None
    if isinstance(v, OptSym):
        return v.flag, v.val
    return "true", v


TOUCHED: set = set()   # (relative file, qualified name) of every definition a kernel looked at


def find_function(tree: ast.Module, qualname: str) -> ast.FunctionDef:
    TOUCHED.add((getattr(tree, "_rel", "?"), qualname))
    parts = qualname.split(".")
    body = tree.body
    node = None
    for p in parts:
        node = next((n for n in body if isinstance(n, (ast.FunctionDef, ast.ClassDef)) and n.name == p), None)
        if node is None:
            raise Untranslatable(qualname, "definition not found")
        body = node.body
    if not isinstance(node, ast.FunctionDef):
        raise Untranslatable(qualname, "not a function")
    return node
