"""
SPMD analysis of the collective MPI calls (C06): every function of the library that calls a collective on the world
communicator (`bcast`, `Bcast`, `Barrier`, `gather`) or one of the broadcast helpers is specialised to the two roles a
rank can have — the root (`on_root()`, resp. "my rank is the designated root") and a worker — and the sequence of
collective call sites that the specialised body executes is emitted as a flat token list, control structure included
(`loop[` … `]`, `if<cond>[` … `|` … `]`, `return`, `raise`).  A collective only completes when every rank of the
communicator enters it; the Lean side proves that equal token lists for both roles mean that every collective is
entered by all ranks (no rank can be left waiting), and checks that equality for every function of the table.

Not analysed here (own roles on sub-communicators, point-to-point protocols — modelled in Model/Mpi.lean and executed in
the simulated worlds): `_mpi_root_task`, `_mpi_worker_task`, and the MPI branch of catalog creation
(`WorkerManager`, `scatter_data_chunk`, `chunk_processing_task`, `writer_task`, MPI `write_patches`).
"""
from __future__ import annotations

import ast
from pathlib import Path

from symex import Untranslatable

COLLECTIVES = {"bcast": "bcast", "Bcast": "Bcast", "Barrier": "barrier", "barrier": "barrier", "gather": "gather",
               "allgather": "allgather"}
HELPERS = {"bcast_instance", "bcast_array", "get_bcast_method", "ranks_on_same_node", "world_to_comm_rank"}
DISPATCH = {"iter_unordered", "_mpi_iter_unordered"}
P2P = {"_mpi_root_task", "_mpi_worker_task"}
SKIP_FUNCS = {"_mpi_root_task", "_mpi_worker_task", "WorkerManager.__init__", "WorkerManager.get_comm", "scatter_data_chunk",
              "chunk_processing_task", "writer_task"}
FILES = ["yaw/utils/parallel.py", "yaw/catalog/readers.py", "yaw/catalog/catalog.py", "yaw/config/combined.py",
         "yaw/correlation/corrfunc.py", "yaw/correlation/corrdata.py", "yaw/redshifts.py", "yaw/catalog/patch.py",
         "yaw/catalog/trees.py", "yaw/correlation/measurements.py", "yaw/utils/logging.py", "yaw/randoms.py",
         "yaw/binning.py", "yaw/config/binning.py", "yaw/config/scales.py", "yaw/utils/abc.py", "yaw/coordinates.py",
         "yaw/correlation/paircounts.py", "yaw/cosmology.py", "yaw/datachunk.py", "yaw/utils/misc.py"]
ROLE_TRUE_FOR_ROOT = {"on_root()", "parallel.on_root()", "comm.Get_rank() == rank", "MPI.COMM_WORLD.Get_rank() == world_rank",
                      "comm.Get_rank() == 0", "parallel.COMM.Get_rank() == 0"}
ROLE_TRUE_FOR_WORKER = {"on_worker()", "parallel.on_worker()"}
MPI_MODE = {"use_mpi()", "parallel.use_mpi()"}


def comm_like(node) -> bool:
    txt = ast.unparse(node)
    return txt in ("comm", "COMM", "parallel.COMM", "MPI.COMM_WORLD")


class Spec:
    """role-specialised collective trace of one function body"""

    def __init__(self, qual: str, role: str):
        self.qual, self.role = qual, role
        self.dyn = set()          # local names bound to a broadcast method (`bcast = get_bcast_method(...)`)

    def role_value(self, test):
        """True/False if the condition is decided by the role, None otherwise"""
        txt = ast.unparse(test)
        if txt in ROLE_TRUE_FOR_ROOT:
            return self.role == "root"
        if txt in ROLE_TRUE_FOR_WORKER:
            return self.role == "worker"
        if txt in MPI_MODE:
            return True
        if isinstance(test, ast.UnaryOp) and isinstance(test.op, ast.Not):
            v = self.role_value(test.operand)
            return None if v is None else not v
        if any(r in txt for r in ("on_root", "on_worker", "Get_rank")):
            raise Untranslatable(self.qual, f"role test inside a compound condition: {txt}")
        return None

    # ---- expressions: collective calls in evaluation order ------------------------------------------------------------
    def expr(self, node) -> list[str]:
        out = []
        if node is None:
            return out
        if isinstance(node, (ast.Lambda, ast.GeneratorExp, ast.ListComp, ast.SetComp, ast.DictComp)):
            inner = [t for n in ast.iter_child_nodes(node) for t in self.expr(n)]
            if inner:
                raise Untranslatable(self.qual, "collective inside a comprehension / lambda")
            return out
        if isinstance(node, ast.IfExp):
            v = self.role_value(node.test)
            if v is not None:
                return self.expr(node.body if v else node.orelse)
            a, b = self.expr(node.body), self.expr(node.orelse)
            if a or b:
                raise Untranslatable(self.qual, "collective inside a conditional expression")
            return self.expr(node.test)
        if isinstance(node, ast.Call):
            for a in node.args:
                out += self.expr(a.value if isinstance(a, ast.Starred) else a)
            for k in node.keywords:
                out += self.expr(k.value)
            f = node.func
            if isinstance(f, ast.Attribute):
                out += self.expr(f.value)
                if f.attr in COLLECTIVES and comm_like(f.value):
                    root = next((ast.unparse(k.value) for k in node.keywords if k.arg == "root"), None)
                    if root is None and f.attr in ("bcast", "Bcast", "gather"):
                        root = ast.unparse(node.args[1]) if len(node.args) > 1 else "0"
                    out.append(f"{COLLECTIVES[f.attr]}({root or '-'})@{node.lineno}")
                elif f.attr in COLLECTIVES and not comm_like(f.value) and f.attr not in ("gather",):
                    # a collective on something that is not the world communicator: outside this analysis
                    if ast.unparse(f.value) not in ("self", "np", "writer", "self._file"):
                        out.append(f"other-comm-{COLLECTIVES[f.attr]}@{node.lineno}")
                elif f.attr in HELPERS:
                    out.append(f"call:{f.attr}@{node.lineno}")
                elif f.attr in DISPATCH:
                    out.append(f"dispatch@{node.lineno}")
            elif isinstance(f, ast.Name):
                if f.id in HELPERS:
                    out.append(f"call:{f.id}@{node.lineno}")
                elif f.id in DISPATCH or f.id == "parallel_method":
                    out.append(f"dispatch@{node.lineno}")
                elif f.id in self.dyn:
                    out.append(f"call:dynamic-bcast@{node.lineno}")
                elif f.id == "partial":
                    pass
            else:
                out += self.expr(f)
            return out
        for child in ast.iter_child_nodes(node):
            if isinstance(child, ast.expr):
                out += self.expr(child)
        return out

    # ---- statements ---------------------------------------------------------------------------------------------------
    def block(self, body) -> tuple[list[str], bool]:
        """tokens, and whether the block certainly left the function"""
        out = []
        for st in body:
            toks, left = self.stmt(st)
            out += toks
            if left:
                return out, True
        return out, False

    def stmt(self, st) -> tuple[list[str], bool]:
        if isinstance(st, (ast.FunctionDef, ast.AsyncFunctionDef, ast.ClassDef, ast.Import, ast.ImportFrom, ast.Pass,
                           ast.Global, ast.Nonlocal)):
            return [], False
        if isinstance(st, ast.Return):
            return self.expr(st.value) + ["return"], True
        if isinstance(st, ast.Raise):
            return ["raise"], True
        if isinstance(st, ast.If):
            v = self.role_value(st.test)
            if v is not None:
                return self.block(st.body if v else st.orelse)
            cond = self.expr(st.test)
            a, la = self.block(st.body)
            b, lb = self.block(st.orelse)
            if not a and not b and not la and not lb:
                return cond, False
            if a == b and la == lb:
                return cond + a, la
            return cond + [f"if<{ast.unparse(st.test)[:60]}>["] + a + ["|"] + b + ["]"], la and lb
        if isinstance(st, (ast.For, ast.AsyncFor)):
            head = self.expr(st.iter)
            body, _ = self.block(st.body)
            orelse, _ = self.block(st.orelse)
            return head + (["loop["] + body + ["]"] if body else []) + orelse, False
        if isinstance(st, ast.While):
            head = self.expr(st.test)
            body, _ = self.block(st.body)
            toks = head + body
            return (["loop["] + toks + ["]"] if toks else []), False
        if isinstance(st, (ast.With, ast.AsyncWith)):
            out = []
            for it in st.items:
                out += self.expr(it.context_expr)
            body, left = self.block(st.body)
            return out + body, left
        if isinstance(st, ast.Try):
            body, left = self.block(st.body)
            for h in st.handlers:
                hb, _ = self.block(h.body)
                if [t for t in hb if t not in ("raise", "return")]:
                    raise Untranslatable(self.qual, "collective inside an exception handler")
            fin, _ = self.block(st.finalbody)
            oe, _ = self.block(st.orelse)
            return body + oe + fin, left
        if isinstance(st, ast.Assign):
            toks = self.expr(st.value)
            if isinstance(st.value, ast.Call) and ast.unparse(st.value.func).endswith("get_bcast_method"):
                for t in st.targets:
                    if isinstance(t, ast.Name):
                        self.dyn.add(t.id)
            return toks, False
        if isinstance(st, (ast.AugAssign, ast.AnnAssign)):
            return self.expr(st.value), False
        if isinstance(st, ast.Expr):
            return self.expr(st.value), False
        if isinstance(st, (ast.Assert, ast.Delete, ast.Break, ast.Continue)):
            return [], False
        if isinstance(st, ast.Match):
            raise Untranslatable(self.qual, "match statement")
        raise Untranslatable(self.qual, f"statement not understood: {type(st).__name__}")


def functions_of(tree):
    def walk(body, prefix, in_mpi_guard):
        for n in body:
            if isinstance(n, ast.ClassDef):
                yield from walk(n.body, prefix + n.name + ".", in_mpi_guard)
            elif isinstance(n, (ast.FunctionDef, ast.AsyncFunctionDef)):
                yield prefix + n.name, n, in_mpi_guard
            elif isinstance(n, ast.If):
                # module-level `if parallel.use_mpi(): ... else: ...` selects the implementation at import time
                g = ast.unparse(n.test) in MPI_MODE
                yield from walk(n.body, prefix, in_mpi_guard or g)
                yield from walk(n.orelse, prefix, in_mpi_guard)
    yield from walk(tree.body, "", False)


def own_nodes(fn):
    """nodes of the function body without nested function / class definitions"""
    stack = list(fn.body)
    while stack:
        n = stack.pop()
        yield n
        for c in ast.iter_child_nodes(n):
            if not isinstance(c, (ast.FunctionDef, ast.AsyncFunctionDef, ast.ClassDef, ast.Lambda)):
                stack.append(c)


def uses_collectives(fn) -> bool:
    for n in own_nodes(fn):
        if isinstance(n, ast.Call):
            f = n.func
            if isinstance(f, ast.Attribute) and ((f.attr in COLLECTIVES and comm_like(f.value)) or f.attr in HELPERS):
                return True
            if isinstance(f, ast.Name) and f.id in HELPERS:
                return True
    return False


def lean_list(toks):
    return "[" + ", ".join('"' + t.replace("\\", "\\\\").replace('"', '\\"') + '"' for t in toks) + "]"


def k_collective_impl(src: Path) -> str:
    rows = []
    for rel in FILES:
        p = src / rel
        if not p.exists():
            continue
        tree = ast.parse(p.read_text())
        for qual, fn, _guard in functions_of(tree):
            if qual in SKIP_FUNCS or qual.startswith("MockComm"):
                continue
            if not uses_collectives(fn):
                continue
            body = fn.body[1:] if (fn.body and isinstance(fn.body[0], ast.Expr) and isinstance(fn.body[0].value, ast.Constant)
                                  and isinstance(fn.body[0].value.value, str)) else fn.body
            traces = {}
            for role in ("root", "worker"):
                toks, _ = Spec(f"{rel}:{qual}", role).block(body)
                traces[role] = toks
            if any(t.startswith("other-comm-") for t in traces["root"] + traces["worker"]) and \
                    "write_patches" not in qual:
                raise Untranslatable(f"{rel}:{qual}", "collective on a communicator other than the world communicator")
            if "write_patches" in qual:
                continue          # MPI catalog creation: sub-communicator roles, see module docstring
            rows.append((f"{rel.removeprefix('yaw/')}:{qual}", traces["root"], traces["worker"]))
            import symex
            symex.TOUCHED.add((rel, qual))
    if len(rows) < 8:
        raise Untranslatable("collectives", f"only {len(rows)} functions with collective calls found")
    out = ["/-- per function: name, collective trace of the body specialised to the root, and to a worker rank -/",
           "def collFns : List (String × List String × List String) := ["]
    out.append(",\n".join(f'  ("{name}", {lean_list(r)}, {lean_list(w)})' for name, r, w in rows))
    out.append("]")
    out.append("")
    return "\n".join(out)
