"""
Abstract interpretation of `autocorrelate` / `crosscorrelate` (correlation/measurements.py) into a *measurement plan*:
which catalogs get their trees built in which role (binned with the configured edges and closed side, or unbinned),
which catalogs enter the patch linkage, which pairs of catalogs are counted and into which slot of
`CorrFunc(dd, dr, rd, rr)` each count goes — for every presence pattern of the optional arguments.

The interpreter accepts exactly the statement forms these two functions consist of and fails closed
(`Untranslatable`) on anything else.
"""
from __future__ import annotations

import ast
import itertools

from symex import Untranslatable, find_function

CATNAMES = {"data": "data", "random": "random", "reference": "reference", "unknown": "unknown",
            "ref_rand": "refRand", "unk_rand": "unkRand"}
KWARGS_TXT = "dict(progress=progress, max_workers=max_workers or config.max_workers)"
OPTIONAL_TXT = "any((cat is None for cat in (main_catalog, *optional_catalog)))"


class Raised(Exception):
    pass


class PlanInterp:
    def __init__(self, fname: str, env: dict):
        self.fname = fname
        self.env = dict(env)
        self.builds = []          # (cat, binned, closedCfg, kwargsFwd)
        self.linkage = None
        self.counts_started = False
        self.result = None

    def bad(self, node, why="statement form not understood"):
        raise Untranslatable(self.fname, f"{why}: {ast.unparse(node)[:120]}")

    # ---- expressions ---------------------------------------------------------------------------------------
    def ev(self, n):
        if isinstance(n, ast.Constant) and n.value is None:
            return None
        if isinstance(n, ast.Constant) and isinstance(n.value, bool):
            return ("bool", n.value)
        if isinstance(n, ast.Name):
            if n.id not in self.env:
                self.bad(n, "unknown name")
            return self.env[n.id]
        if isinstance(n, ast.Compare) and len(n.ops) == 1 and isinstance(n.comparators[0], ast.Constant) \
                and n.comparators[0].value is None and isinstance(n.ops[0], (ast.Is, ast.IsNot)):
            v = self.ev(n.left)
            if v is not None and v[0] != "cat":
                self.bad(n, "None-test of a non-catalog")
            return ("bool", (v is None) == isinstance(n.ops[0], ast.Is))
        if isinstance(n, ast.UnaryOp) and isinstance(n.op, ast.Not):
            return ("bool", not self.truth(n.operand))
        if isinstance(n, ast.BoolOp):
            vals = [self.truth(v) for v in n.values]
            return ("bool", all(vals) if isinstance(n.op, ast.And) else any(vals))
        if isinstance(n, ast.IfExp):
            return self.ev(n.body) if self.truth(n.test) else self.ev(n.orelse)
        if isinstance(n, ast.List) and not n.elts:
            return ("list", [])
        txt = ast.unparse(n)
        if txt == "config.binning.edges":
            return ("edges",)
        if txt == "config.binning.closed":
            return ("closed",)
        if txt == KWARGS_TXT:
            return ("kwargs",)
        if isinstance(n, ast.Call):
            return self.call(n)
        self.bad(n, "expression not understood")

    def truth(self, n) -> bool:
        v = self.ev(n)
        if v is None or v[0] != "bool":
            self.bad(n, "condition is not a known boolean")
        return v[1]

    def catargs(self, args):
        out = []
        for a in args:
            if isinstance(a, ast.Starred):
                v = self.ev(a.value)
                if v is None or v[0] != "list":
                    self.bad(a, "starred argument is not a known list")
                out.extend(v[1])
            else:
                v = self.ev(a)
                if v is not None and v[0] != "cat":
                    self.bad(a, "argument is not a catalog")
                out.append(v)
        return out

    def kw_forwarded(self, call) -> bool:
        return any(k.arg is None and self.ev(k.value) == ("kwargs",) for k in call.keywords)

    def call(self, n: ast.Call):
        f = ast.unparse(n.func)
        if f == "PatchLinkage.from_catalogs":
            if ast.unparse(n.args[0]) != "config" or n.keywords:
                self.bad(n, "linkage is not built from the configuration")
            cats = self.catargs(n.args[1:])
            if any(c is None for c in cats):
                self.bad(n, "absent catalog passed to the linkage")
            if self.linkage is not None:
                self.bad(n, "second linkage")
            self.linkage = [c[1] for c in cats]
            return ("links",)
        if f in ("links.count_pairs", "links.count_pairs_optional"):
            if self.env.get("links") != ("links",):
                self.bad(n, "count without a linkage")
            if not self.kw_forwarded(n) or any(k.arg is not None for k in n.keywords):
                self.bad(n, "count_pairs does not forward exactly **kwargs")
            cats = self.catargs(n.args)
            if not 1 <= len(cats) <= 2:
                self.bad(n, "count_pairs with other than one or two catalogs")
            self.counts_started = True
            if any(c is None for c in cats):
                if f.endswith("_optional"):
                    return ("nocounts",)
                self.bad(n, "count_pairs (not the optional variant) called with an absent catalog")
            return ("counts", cats[0][1], cats[1][1] if len(cats) == 2 else None)
        self.bad(n, "call not understood")

    # ---- statements -----------------------------------------------------------------------------------------
    def is_log_only(self, st) -> bool:
        return (isinstance(st, ast.If) and ast.unparse(st.test) == "parallel.on_root()" and not st.orelse
                and all(isinstance(b, ast.Expr) and isinstance(b.value, ast.Call)
                        and ast.unparse(b.value.func).startswith("logger.") for b in st.body))

    def run(self, body):
        for st in body:
            if self.result is not None:
                self.bad(st, "statement after return")
            if self.is_log_only(st):
                continue
            if isinstance(st, ast.Assign) and len(st.targets) == 1 and isinstance(st.targets[0], ast.Name):
                self.env[st.targets[0].id] = self.ev(st.value)
            elif isinstance(st, ast.If):
                self.run(st.body if self.truth(st.test) else st.orelse)
            elif isinstance(st, ast.For) and isinstance(st.iter, (ast.Tuple, ast.List)) and not st.orelse:
                # a loop over a literal tuple is unrolled
                for el in st.iter.elts:
                    if isinstance(st.target, ast.Name):
                        self.env[st.target.id] = self.ev(el)
                    elif isinstance(st.target, ast.Tuple) and isinstance(el, (ast.Tuple, ast.List)) \
                            and len(el.elts) == len(st.target.elts) and all(isinstance(t, ast.Name) for t in st.target.elts):
                        for t, e in zip(st.target.elts, el.elts):
                            self.env[t.id] = self.ev(e)
                    else:
                        self.bad(st, "loop target not understood")
                    self.run(st.body)
            elif isinstance(st, ast.Raise):
                raise Raised()
            elif isinstance(st, ast.Expr) and isinstance(st.value, ast.Call) and isinstance(st.value.func, ast.Attribute):
                c = st.value
                if c.func.attr == "build_trees":
                    if self.linkage is not None or self.counts_started:
                        self.bad(st, "trees built after the linkage / a count")
                    cat = self.ev(c.func.value)
                    if cat is None or cat[0] != "cat" or len(c.args) != 1:
                        self.bad(st, "build_trees on something that is not a present catalog")
                    a0 = self.ev(c.args[0])
                    if a0 is not None and a0 != ("edges",):
                        self.bad(st, "build_trees with edges other than the configured ones or None")
                    closed = [k for k in c.keywords if k.arg == "closed"]
                    other = [k for k in c.keywords if k.arg not in (None, "closed")]
                    if other:
                        self.bad(st, "unexpected keyword in build_trees")
                    closed_cfg = bool(closed) and self.ev(closed[0].value) == ("closed",)
                    if closed and not closed_cfg:
                        self.bad(st, "closed= is not the configured closed side")
                    self.builds.append((cat[1], a0 is not None, closed_cfg, self.kw_forwarded(c)))
                elif c.func.attr == "append":
                    lst = self.ev(c.func.value)
                    v = self.ev(c.args[0])
                    if lst is None or lst[0] != "list" or v is None or v[0] != "cat":
                        self.bad(st, "append of a non-catalog")
                    lst[1].append(v)
                else:
                    self.bad(st)
            elif isinstance(st, ast.Return):
                self.result = self.ret(st.value)
            else:
                self.bad(st)

    def ret(self, n):
        # [CorrFunc(dd, dr, None, rr) for dd, dr, rr in zip(DD, DR, RR)]
        if not (isinstance(n, ast.ListComp) and len(n.generators) == 1 and not n.generators[0].ifs
                and isinstance(n.elt, ast.Call) and ast.unparse(n.elt.func) == "CorrFunc" and not n.elt.keywords
                and len(n.elt.args) == 4):
            self.bad(n, "return is not a list of CorrFunc(dd, dr, rd, rr) calls")
        g = n.generators[0]
        if not (isinstance(g.iter, ast.Call) and ast.unparse(g.iter.func) == "zip" and isinstance(g.target, ast.Tuple)
                and len(g.target.elts) == len(g.iter.args)):
            self.bad(n, "comprehension does not zip the count lists")
        lookup = {t.id: self.ev(a) for t, a in zip(g.target.elts, g.iter.args)}
        slots = []
        for a in n.elt.args:
            if isinstance(a, ast.Constant) and a.value is None:
                slots.append(("nocounts",))
            elif isinstance(a, ast.Name) and a.id in lookup:
                v = lookup[a.id]
                if v is None or v[0] not in ("counts", "nocounts"):
                    self.bad(a, "CorrFunc member is not a count result")
                slots.append(v)
            else:
                self.bad(a, "CorrFunc argument not understood")
        return slots


def lean_cat(c):
    return f".{c}"


def lean_plan(interp: PlanInterp) -> str:
    b = ", ".join(f"⟨{lean_cat(c)}, {str(bi).lower()}, {str(cl).lower()}, {str(kw).lower()}⟩" for c, bi, cl, kw in interp.builds)
    link = ", ".join(lean_cat(c) for c in (interp.linkage or []))
    slots = []
    for s in interp.result:
        if s[0] == "nocounts":
            slots.append("none")
        else:
            second = f"some {lean_cat(s[2])}" if s[2] is not None else "none"
            slots.append(f"some ⟨{lean_cat(s[1])}, {second}⟩")
    return f"some ⟨[{b}], [{link}], [{', '.join(slots)}]⟩"


def interp_function(fn: ast.FunctionDef, fname: str, fixed: dict, optional: list, flags: list):
    """table: tuple of booleans (optional present..., flags...) -> Lean Option Plan"""
    rows = {}
    body = fn.body[1:] if (fn.body and isinstance(fn.body[0], ast.Expr) and isinstance(fn.body[0].value, ast.Constant)) else fn.body
    for combo in itertools.product([False, True], repeat=len(optional) + len(flags)):
        env = dict(fixed)
        for name, present in zip(optional, combo):
            env[name] = ("cat", CATNAMES[name]) if present else None
        for name, val in zip(flags, combo[len(optional):]):
            env[name] = ("bool", val)
        it = PlanInterp(fname, env)
        try:
            it.run(body)
        except Raised:
            rows[combo] = "none"
            continue
        if it.result is None:
            raise Untranslatable(fname, "no return reached")
        rows[combo] = lean_plan(it)
    return rows


def k_plan_impl(tm: ast.Module) -> str:
    cross = find_function(tm, "crosscorrelate")
    auto = find_function(tm, "autocorrelate")
    opt = find_function(tm, "PatchLinkage.count_pairs_optional")
    cp = find_function(tm, "PatchLinkage.count_pairs")
    gpp = find_function(tm, "PatchLinkage.get_patch_pairs")
    # the optional variant: None-list exactly when some catalog is absent, otherwise count_pairs with the same arguments
    ob = [s for s in opt.body if not (isinstance(s, ast.Expr) and isinstance(s.value, ast.Constant))]
    if not (len(ob) == 1 and isinstance(ob[0], ast.If) and ast.unparse(ob[0].test) == OPTIONAL_TXT
            and ast.unparse(ob[0].body[0]).startswith("return [None for _ in range(self.config.scales.num_scales)]")
            and ast.unparse(ob[0].orelse[0]).replace("\n", "").replace(" ", "")
            == "returnself.count_pairs(main_catalog,*optional_catalog,progress=progress,max_workers=max_workers)"):
        raise Untranslatable("PatchLinkage.count_pairs_optional", "not 'None-list if a catalog is absent else count_pairs'")
    # auto-correlation mode of a count = no second catalog
    cptxt = [ast.unparse(s) for s in cp.body]
    if "auto = len(optional_catalog) == 0" not in cptxt or \
            "patch_pairs = self.get_patch_pairs(main_catalog, *optional_catalog)" not in cptxt:
        raise Untranslatable("PatchLinkage.count_pairs", "auto flag / patch pairs derived differently")
    gtxt = [ast.unparse(s) for s in gpp.body]
    if "auto = catalog2 is None" not in gtxt or not any(t.startswith("if auto:\n    catalog2 = catalog1") for t in gtxt):
        raise Untranslatable("PatchLinkage.get_patch_pairs", "second catalog of an autocorrelation is not the first")
    if [a.arg for a in cross.args.args] != ["config", "reference", "unknown"] or \
            not {"ref_rand", "unk_rand"} <= {a.arg for a in cross.args.kwonlyargs}:
        raise Untranslatable("crosscorrelate", "signature changed")
    if [a.arg for a in auto.args.args] != ["config", "data", "random"] or \
            "count_rr" not in {a.arg for a in auto.args.kwonlyargs}:
        raise Untranslatable("autocorrelate", "signature changed")
    crows = interp_function(cross, "crosscorrelate",
                            {"reference": ("cat", "reference"), "unknown": ("cat", "unknown")}, ["ref_rand", "unk_rand"], [])
    arows = interp_function(auto, "autocorrelate",
                            {"data": ("cat", "data"), "random": ("cat", "random")}, [], ["count_rr"])
    out = ["/-- `crosscorrelate` as a plan, per (ref_rand present, unk_rand present); `none` = raises -/",
           "def crossPlan : Bool → Bool → Option Plan"]
    for (rr, ur), v in sorted(crows.items()):
        out.append(f"  | {str(rr).lower()}, {str(ur).lower()} => {v}")
    out += ["", "/-- `autocorrelate` as a plan, per `count_rr` -/", "def autoPlan : Bool → Option Plan"]
    for (crr,), v in sorted(arows.items()):
        out.append(f"  | {str(crr).lower()} => {v}")
    out.append("")
    return "\n".join(out)
